#!/usr/bin/env python3
"""Regenerates MANIFEST.json from the table below (kept in one place so it stays valid)."""
import json, os
V = os.path.dirname(os.path.abspath(__file__))
props = [json.loads(l) for l in open(os.path.join(V, "properties.jsonl"))]
# property -> (technique, level text, level_note, design_ref)
TB = 'Trusted: Lean kernel + propext/Classical.choice/Quot.sound (audited per theorem each run); the go/ast extractor and the Skeleton facts it emits; '
CLAIMED = {
 "C19": ("Lean 4 proof over LTS model M1 (inductive invariants) + regenerated skeleton + trace validation under a controlled scheduler",
         "Theorems (Props/C19.lean) for all reachable states of the broadcaster LTS, any number of threads/keys/contexts and every interleaving: no panic, at most one receiver per published value, no cross-key delivery, publish/receive enabledness once freed/closed/cancelled, justified outcomes, idempotent Free. Tied to the source by facts regenerated from /repo (Tie 1) and by replaying every executed schedule of the real Broadcaster on the model (Tie 2). Also C19Mailbox.lean: forward simulation of M1 to a short sequential per-key mailbox specification through an abstraction function (every reachable M1 state abstracts to a reachable spec state; at-most-once, no cross-key, no cross-epoch transfer); the monitor runs in lockstep on every validated real trace.",
         TB + "Go channel/select/context semantics as modelled; hook placement; the scheduler's settle detection. Not carried by the theorem: Go scheduler fairness.",
         "DESIGN.md 7 C19, A.1"),
 "C18": ("Lean 4 proof over a structural model of the remote-definition walk + regenerated skeleton + differential run against real reflect",
         "Theorems (Props/C18.lean) for ALL remote struct shapes (any depth, order, mix): link succeeds iff every function field is valid, the error is the first invalid field's in depth-first order (return shape before arguments), non-function fields are irrelevant, the walk never panics, stub name = dotted path and Go's strings.Split inverts the join. Tie 2: 25 compiled remote types are linked for real in subprocesses, every stub invoked, outcome compared with the model and with an oracle computed from reflect.Type. Compose.lean: for EVERY valid definition, the request sent by the stub at path P resolves, in the lookup model on the mirrored local object, to the method at P of the instance at P (C18_naming_agrees_with_lookup).",
         TB + "reflect's Set/CanSet/FieldByName behaviour as modelled (validated on the zoo); callee-side lookup is C07's model.",
         "DESIGN.md 7 C18"),
 "C17": ("Lean 4 proof over a tree model of frame construction + regenerated skeleton (struct tags, literals) + independent decoding of captured frames",
         "Theorems (Props/C17.lean) for all calls/arities/return shapes and any serializer: exact request/response/envelope trees, args never null, response carries the request's id, err empty iff nil under the hypothesis message != \"\" (the counterexample for the empty message is proved and is a KNOWN FINDING), foreign frames in any key order / absent or null args are parsed identically. Tie 2: every frame of a covering workload is captured, decoded with an independent generic decoder and compared with the model's rendering, 3 serializer configs x 2 APIs; hand-written foreign frames are answered.",
         TB + "the serializer is a parameter (decode . encode = id on frames is measured for the shims, not proved).",
         "DESIGN.md 7 C17, 8 F7"),
 "C09": ("Lean 4 proof over the wire model (parametric in the serializer) + regenerated skeleton + round-trip differential on the real link",
         "Theorems (Props/C09.lean) for every arity and any codec: handler argument i = decode(encode(caller argument i)) into the declared type, the context is never transmitted (frame independent of it, length arity-1), result = one round-trip of the handler's value. Tie 2: 12-parameter handler with boundary/zero/nil values under 3 serializer configs x 2 APIs, compared with a direct marshal->unmarshal.",
         TB + "serializer value semantics are the parameter; arg-count check precedes decoding (C07).",
         "DESIGN.md 7 C09"),
 "C10": ("Lean 4 proof over the wire model with Go's unicode.IsSpace table + regenerated skeleton + message differential on the real link",
         "Theorems (Props/C10.lean) for all message strings: a message with a non-blank character arrives byte-exact (untrimmed) for both return shapes, with the accompanying value; nil stays nil (also after earlier error frames); blank-only messages arrive as nil (outside the property's domain, stated as a fact). Tie 2: isGoSpace checked against unicode.IsSpace on all code points by the wire agent's differential; corner-case and PRNG messages through handlers and closures, both directions, 3 configs x 2 APIs, link must stay alive. Also C10Callee.lean: a returning handler (any shape, any message) yields exactly one response with the request's id and never a setErr (an application error is not fatal), at most one response per request.",
         TB + "error identity is compared by message.",
         "DESIGN.md 7 C10"),
 "C11": ("Lean 4 proof over a model of convertValue / the closure wrapper + regenerated skeleton + differential against the real convertValue",
         "Theorems (Props/C11.lean): for all supported value lists (numbers, booleans, strings, slices of those, zero/empty/nil) under JSON and CBOR generic decoding the wrapper runs the function once with exactly those values; convertValue never panics for any source/destination; arity and inconvertible arguments are ordinary errors; value and error are handed back unchanged, result direction total. Tie 2: 685 source x destination pairs through the real convertValue (verif accessor) vs the model; closure workloads (0..5 invocations, concurrent, both directions, 10-parameter typed closure) on the real link. The exactly-once part rests on C01's model. Compose.lean bridges to M3: for every returned CallClosure call there is exactly one invocation record with its args and return, and for it the wrapper runs the user function once with the embedded values.",
         TB + "reflect.ConvertibleTo/Convert on the modelled classes (bit widths, non-integral floats, []byte outside the model).",
         "DESIGN.md 7 C11, 8 F3"),
 "C08": ("Lean 4 proof over an LTS of the stream demultiplexer (refinement to FIFO message delivery) + regenerated skeleton + transcript equality across configurations",
         "Theorems (Props/C08.lean, C08Live.lean) for every envelope sequence and interleaving: each reader sees exactly the FIFO subsequence of its members, nothing lost/duplicated/invented while the context lives, the decode error arrives after all earlier members and only then, envelopes carry exactly one member, the decoder can always finish (guarded hand-off). Payload opacity is a checked source fact (stPayloadOpaque). Tie 2: seeded workloads replayed under 8 configurations (2 APIs, PRNG stream chunking, 3 serializers): transcripts must be equal. Also C08Param.lean: payload parametricity as functoriality — for any payload translation that is a codec homomorphism, frame construction, parsing and the end-to-end call observables commute / are equal, for every skeleton; stream vs message link give equal observables; the stream demultiplexer is blind to payload content (step_map).",
         TB + "parametricity in the payload type is argued from the source fact, not proved as a free theorem.",
         "DESIGN.md 7 C08"),
 "C20": ("Lean 4 proof of a lockset theorem over a fragment of the Go memory model, instantiated by `decide` on the access table regenerated from the source; race detector as cross-check",
         "lockset_race_free: in every well-formed trace whose threads follow a disciplined access table no two conflicting accesses race (mutex rel->acq and close->receive edges); C20_instance: the table extracted from /repo on this run is disciplined. Cross-check: the workloads of nine suites re-run under `go build -race`; a report whose racing access is in panrpc code is a violation.",
         TB + "completeness of the extractor's enumeration of shared variables; lexical lock sets = dynamic ones; one writer goroutine per close-ordered variable; reflect/runtime internals.",
         "DESIGN.md 7 C20"),
 "C06": ("Lean 4 proof over a model of reflect-based lookup with panics as outcomes + regenerated skeleton + hostile raw peer against a child-process registry",
         "Theorems (Props/C06.lean) for ALL type tables, object graphs (nil root, nil pointers, nil interfaces, nil embedded pointers, unexported and interface-typed fields), path strings and argument counts: resolution never yields `crash` (lookup panics are recovered, Call-time reflect panics are contained by utils.Call); on well-formed shapes the only crash classes of the pinned tree are the three proved witnesses. Tie 2: generated, near-miss, malformed and byte-mutated frames (requests and responses, bogus/duplicate ids) at a real registry in a child process, both APIs: child alive, every request answered or its link ended with a non-nil error, sibling link healthy after every frame; lookup model vs real reflect in C07.",
         TB + "reflect as modelled (validated differentially on 6 roots x 85 paths); the decoder's own memory safety is the serializer's.",
         "DESIGN.md 7 C06, 8 F2"),
 "C07": ("Lean 4 proof relating the lookup model to an independent Go-spec definition of exposure (soundness + completeness) + regenerated skeleton + differential against real reflect and end-to-end name enumeration",
         "Theorems (Props/C07.lean) for ALL shapes and names: `runs inst m` implies the path is a dot-join of exported field names selecting (Go selector rules: depth, uniqueness, promotion) a value whose method set has exported m, bound to that very object, with matching argument count; conversely every exposed path resolves; the only other callable is CallClosure with 2 args; everything else is rejected. Tie 2: real findMethodByFunctionCallPathRecursively (verif accessor) vs the model on 6 roots x 85 paths; every name of the zoo x 0/1/2 args sent end to end (child process, both APIs): application code may run only where the oracle and the model say so.",
         TB + "reflect.FieldByName/MethodByName/Call flag semantics as modelled; method sets are taken from reflect.Type (promotion is the Go compiler's).",
         "DESIGN.md 7 C07, 8 F9"),
 "C13": ("Lean 4 proof over LTS model M4 (one registry, unboundedly many links) + regenerated skeleton + hub-and-spoke runs with life-cycle trace validation",
         "Theorems (Props/C13.lean) for all reachable states with any number of interleaved links: the id in a handler's context = the link's id = the key it is enumerated under = the id of its connect events, ids distinct; calls through link l's remote are written to l's writer and answered to l's reader only; every action of link l (faults, cancellation, teardown) leaves every other link's component, its table entries and the enabledness/effect of its actions unchanged. Tie 2: one registry with k peers: identity/routing/isolation oracles with one random link failing under traffic; the hub's life-cycle events are replayed on M4 and the hook logs compared.",
         TB + "per-call correlation inside one link is C01's model; fresh remote ids.",
         "DESIGN.md 7 C13"),
 "C14": ("Lean 4 proof over LTS model M4 (inductive invariants over the ghost hook log) + regenerated skeleton + teardown matrix with life-cycle trace validation",
         "Theorems (Props/C14.lean) for all reachable states, any number of concurrent and repeated links and every termination cause: enumeration = connected minus disconnected AT EVERY INSTANT (registration+hooks and removal+hooks are single critical sections), exactly one connect of each kind with a fresh id before any request is read, at most one disconnect of each kind and only after both loops exited, per-link hook events mirror the registry's, and from every state with the context cancelled and reads failing an explicit run of <= 6 own steps reaches the disconnect. Tie 2: teardown matrix (2 APIs x 3 causes x in-flight counts x 3 peer behaviours): hook-count/enumeration oracles; each side's recorded life-cycle replayed on M4, hook logs must agree.",
         TB + "the stream decoder's ability to finish is C08Live's theorem; scheduler fairness.",
         "DESIGN.md 7 C14, 8 F4 F5b"),
 "C01": ("Lean 4 proof over LTS model M3 (two endpoints, frames in flight as multisets) + regenerated skeleton + concurrent workloads under adversarial delivery",
         "Theorems (Props/C01.lean) for all reachable states, any number of calls in both directions and every delivery order: call ids unique, every request/response frame carries the id/fn/args/return of exactly the thread that produced it, at most one invocation per (endpoint, id) and exactly one once returned, a returned (v, err) is the return of the unique invocation with that id and the call's fn/args (C01_result_is_own), no publish ever completes a call with a different id; a registered call can always complete (partial: from `registered`). Witnesses show recv-before-write and fresh ids are load-bearing. Tie 2: N concurrent echo calls in both directions with random / reverse / hold-all-responses delivery, 3 serializers x 2 APIs: each call returns the serial and arguments of exactly one invocation carrying its own arguments. Also (Props/C01Live.lean): full C01_can_complete — every registered or written call whose handler chain is not stalled returns by an explicit continuation of <= 8+6n steps (progress invariant locating its frame/handler/publisher), and the stalled hypothesis is necessary. Real concurrent workloads (transport taps + hooks) are replayed on M3.",
         TB + "fresh uuids; the transport delivers frames intact; M3's broadcaster abstraction (pending set) vs M1 is argued, not proved.",
         "DESIGN.md 7 C01"),
 "C02": ("Lean 4 proof over LTS model M3 (enabledness of the read loops independent of handler state; explicit completing runs by induction on depth) + regenerated skeleton + nested/stalled workloads",
         "Theorems (Props/C02.lean): in every reachable state both read loops can consume any pending frame whatever the handlers, calls and publishers are doing (C02_loops_never_wait); for EVERY depth n and every set of stalled handlers an explicit run of 8+10n steps completes the alternating chain using no step of a pre-existing handler; a fresh independent call completes likewise; no panrpc lock is held while a closure runs (source fact). Witnesses: with the handler inline in the request loop a depth-2 chain is provably stuck. Tie 2: Bounce chains to depth 8 (40 thorough), binary call trees, closures that call back, a stalled closure while other closure-carrying calls start/finish and closures pass closures on, with 0/3 gated handlers per side.",
         TB + "Go scheduler fairness; goroutine stack growth at depth.",
         "DESIGN.md 7 C02"),
 "C03": ("Lean 4 proof over LTS model M2 (caller side of one endpoint, embedding M1 by a projection lemma) + regenerated skeleton + fault enumeration on the real link",
         "Theorems (Props/C03.lean) for all reachable states / schedules / fault placements: setErr always leaves the table closed, forever; on a closed table every waiting waiter has its wake-up enabled and every in-flight call reaches `returned` in <= 8 steps by an explicit run; a nil-error result implies a frame with that call id was delivered to that waiter; a call started after the end is refused, recovers and returns ErrClosed without ever writing; a panicking stub only leaves through its recover. Tie 2: one failure injected at every (side, operation kind, occurrence) and a cancellation at every operation index of a workload with k gated calls in flight, both APIs; plus a hammer (read error under 12 concurrent callers, context alive): every caller returns an error.",
         TB + "M1's atomicity facts (one critical section per broadcaster operation); wall-clock bounds are watchdogs, not theorems.",
         "DESIGN.md 7 C03"),
 "C04": ("Lean 4 proof over LTS model M2 (enabledness, explicit bounded runs, frame lemma) + regenerated skeleton + schedule exploration of the real stub at its yield points",
         "Theorems (Props/C04.lean): ctx done + live entry + no publisher at its hand-off => only the ctx case is enabled; an explicit 5-step run returns (zero, ctx error), frees the entry and touches neither setters, log nor slot; in the both-ready state the outcome is the ctx error or the call's own frame, nothing else; a late frame's publisher ends at its lookup changing nothing; steps of call c change no component of another call and not the enabledness of its steps (full statement). Tie 2: ten scenarios (response/cancel/duplicate response/link cancel/two calls) explored by DFS over the interleavings at the yield points of the real registry with a raw scripted peer, in child processes: own response or (zero, ctx error), link healthy afterwards (follow-up call).",
         TB + "the reading of 'before its response arrives' in DESIGN.md 7 C04 (both-ready select); Go's select coin cannot be steered: schedules are repeated.",
         "DESIGN.md 7 C04"),
 "C05": ("Lean 4 proof over M2 + M1 (no-crash invariant through the projection lemma) + regenerated skeleton + schedule exploration and shutdown stress in child processes",
         "Theorems (Props/C05.lean): crashed = false in every reachable state of M2 (send-on-closed / double-close are the crash-capable steps; excluded by M1's NC invariant under the regenerated facts); every reachable M2 state embeds a reachable M1 state; the table lock is never held across a blocking operation. Callee-side containment of user panics is by the utils.Call recover facts (ucRecovers, reqCallViaUtilsCall, clCallViaUtilsCall) and exercised dynamically. Tie 2: the C04 scenarios incl. duplicate/late responses and link shutdown racing responses, each schedule in a child process (crash = exit status); shutdown stress: 48 calls in flight on link/child/independent contexts cancelled concurrently with link shutdown, 400 rounds. Also: C05Callee.lean (callee-side LTS: handler/closure/lookup panics never crash, closure panics become error responses; response building is recovered — F10) and C05Deadlock.lean (no internal deadlock: every live internal thread has an enabled step or is parked at one of four blocking operations waiting only for an external event or a thread that itself can step; no wait-for cycle; what wakes a blocked waiter/publisher).",
         TB + "reflect panics are C06's; user-panic containment is a source fact + dynamic check, not an LTS theorem.",
         "DESIGN.md 7 C05, 8 F1"),
 "C12": ("Lean 4 proof over LTS model M2 (closure table = closures of calls in flight, via a ghost owner map) + regenerated skeleton + exit-path matrix on the real link",
         "Theorems (Props/C12.lean) for all reachable states and every exit path (success, marshal failure of a later argument, cancel, link end, panic): closure id registered <-> its owning call has not returned; table empty when no call is in flight; a lookup after the owner returned logs a miss, during the call a hit; ids are fresh and have one owner. Tie 2: kept closures invoked during and after the passing call for each exit path x 2 APIs x 3 serializers, with the read-only registration counter (verif accessor).",
         TB + "the lookup is the linearization point of an invocation (DESIGN.md 7 C12).",
         "DESIGN.md 7 C12"),
 "C15": ("Lean 4 proof over M2 (waiters can always exit) and M4 (setup goroutine and loops exit, nothing enumerated) + regenerated skeleton + teardown matrix with goroutine dumps",
         "Theorems (Props/C15.lean, C15Reg.lean): with the buffered result channel a waiter holding a response always has its send and then its Free enabled, so on a closed table every waiter reaches `exited` in <= 4 own steps; closed table => no entries; all waiters exited => empty table; `unregistered` is final and nothing is enumerated for the link; from any state with context cancelled and reads failing an explicit run of <= 6 own steps exits the setup goroutine and both loops; the stream decoder can finish (C08Live). Pinned witnesses: stranded waiter, wedged decoder. Tie 2: 2 APIs x 3 causes x in-flight counts x 3 peer behaviours: after teardown no goroutine with a panrpc frame outside application code, no closure registration, nothing enumerated.",
         TB + "heap growth only through its causes (goroutines, table entries); scheduler fairness.",
         "DESIGN.md 7 C15, 8 F5 F5b"),
 "C16": ("Lean 4 proof over LTS model M2 (fatal slot, ghost log of stores, Link thread) + regenerated skeleton + fault enumeration, a deterministic schedule scenario and a hammer on the real link",
         "Theorems (Props/C16.lean) for all failure kinds, positions and timings of secondary failures: Link has not returned while no error was stored; the returned value = the slot = the head of the store log, non-nil; table closed => slot already set, hence ErrClosed (observable only through the closed table) is never the head/slot/return value; once an error is stored Link returns within <= 2 own steps and is never parked. Pinned witnesses: ErrClosed stored first; a second error overwriting the first. Tie 2: injected failure at every operation and cancellation at every index: Link must return exactly the injected / context error; scenario read-error + new call under the controlled scheduler; hammer with 8 callers on the dying link, 300 repetitions.",
         TB + "sync.Cond semantics as modelled (Wait = release; park; re-acquire).",
         "DESIGN.md 7 C16, 8 F6"),
}
# additions made after the first round of claims (appended to the level text)
ADDED = {
 "C01": " Also: a quarter of the concurrent calls return a value TOGETHER with an error; model assumption `Async` now includes 'the read loops do nothing between two reads that can wait' (extracted facts).",
 "C02": " The loops' non-blocking bodies (`reqLoopBlocksOnlyOnRead`, `respLoopBlocksOnlyOnRead`) are extracted facts under `Async`; workloads include 1300 stalled handlers per side and chains of depth 2600 (no admission limit). The write wrapper never waits (`ioWrappersNonBlocking`, under `Async`): a caller-side window is model behaviour of M3 — C02_needs_nonblocking_wrappers, C02_window_stalled_handler_blocks_others (witnesses on the flipped skeleton).",
 "C03": " C03_setErr_always_closes, C03_recover_blocks_canonical; C03_read_failure_reaches_setErr: every read error reaches setErr unconditionally and without waiting (no foreign lock, no channel operation); fault cases include calls issued inside the ForRemotes callback, judged before any teardown, and injected errors that wrap context.DeadlineExceeded/Canceled.",
 "C04": " C04_closure_invocations_are_cancellable (the proxy hands the invocation's own context to the stub; release never waits for a running closure) + scenarios: invocation under a deadline, cancel while the passed closure is running; a call ended by its DEADLINE (and by cancel) while a sibling is in flight: sibling, later calls and the link unaffected (suite_c04deadline.go). Model M2: a stub that panics on an outcome of the call (source fact panicSitesCanonical flipped) takes the link down — C04_panicking_on_a_call_outcome_ends_the_link.",
 "C05": " The closure table's mutex is model state (never held in a reachable state of the current tree; witnesses on the flipped skeleton); C05_reflect_call_never_waits; C05_recover_blocks_canonical; raw-peer children (duplicate responses on a live link, bad closure id invoked from a spawned goroutine). Further modules: Props/C05Callee.lean (callee-side containment, model Callee.lean, trace-validated by 19 raw-peer scenarios in child processes: `ce run`), Props/C05Deadlock.lean (no internal wait cycle), Props/C08Live.lean (decoder signals exactly once; done implies signalled; readers can always leave), closure release never waits for a running closure; late frames on an ended stream link in a child process.",
 "C06": " Props/C06Link.lean: terminating a link never crashes, for every interleaving of setErr with in-flight calls (M2 over M1); every other hostile link has a call of ours in flight; zero-parameter exported methods in the zoo; systematic name sweep. Props/C08Frames.lean: a read loop that reuses one decode target lets a handler run with a later request's arguments (witness), the per-iteration struct of the current source does not (all pipelines, all schedules); raw-peer child: 80 pipelined requests with 120 KB arguments.",
 "C07": " `Faithful` now includes: the walk is repeated on every request from the object held now (no cache), the argument-count check precedes every access to the parameter list; scenario: the exposed graph is re-pointed between calls; the method lookup runs on the very value the walk ended on (no Addr(): pointer methods of by-value sub-objects stay unexposed).",
 "C08": " Stream model: the silent abort is not a step of the current source (C15_no_silent_abort), decoder done implies readers signalled; C08_envelope_fresh_per_frame; scenarios: envelopes with omitted members, 300 pipelined requests in one chunk, frames after the link ended. Props/C08Frames.lean + raw-peer child with 80 pipelined large requests: every request runs with the arguments of its own frame.",
 "C09": " Workload also returns values together with errors and calls the same remote functions from 8 goroutines at once. Props/C08Frames.lean + raw-peer child with 80 pipelined large requests: every request runs with the arguments of its own frame.",
 "C10": " Props/C10Callee.lean over the callee model, trace-validated (`ce run`) by raw-peer scenarios: every return shape, resolve errors, handler/closure panics (error and non-error values), marshal and write failures.",
 "C11": " C11_invocations_run_outside_the_table_lock + scenarios: 4 concurrent invocations that wait for each other, a closure body that passes a closure on; float32 / int8 / uint16 / int32 rows (values float32 holds only approximately) with the float32 result going back.",
 "C12": " Scheduler scenarios closure-call+invoke+response/cancel+late-invoke are replayed on M2 (closure table = closures of in-flight calls; look-up hit/miss sequence compared); exit path 'link already ended'.",
 "C13": " Re-link phase: a new link after a failure gets a fresh id, survivors keep identity and routing; the new link's context is derived from a handler context of another live link (already carries that link's id) and its handlers still read its own id.",
 "C14": " The harness samples the number of open transport reads at every disconnect notification (must be 0); all 5 x 4 combinations of set / unset registry-wide and per-link hooks, on both link APIs.",
 "C15": " Post-teardown closure-carrying calls must leave no registration; Props/C08Live.lean (decoder done implies signalled, readers can always leave); nothing can leave the setup goroutine between the registration and the deferral of the removal.",
 "C16": " C16_only_link_failures_end_the_link is a theorem of M2 now (Receive refusing a done context, and a stub panicking on a call outcome — fact panicSitesCanonical — are model behaviour; witnesses on the flipped skeletons), C16_link_returns_the_slot, C16_proxy_failures_are_fatal; raw-peer children (bad closure id, refused error-response); fail-then-cancel; C16_setErr_waits_for_nobody (setErr takes only its own lock; the loops reach it without waiting); in-callback and context-wrapping fault cases.",
 "C17": " C17_closure_arglist_is_array + frames of closure invocations (0 and 2 closure arguments) decoded independently.",
}
STATE_PROPS = {"C01", "C02", "C03", "C04", "C05", "C06", "C07", "C08", "C09", "C10", "C11", "C12", "C13", "C14", "C15", "C16", "C17", "C19", "C20"}
FOUNDATION_PROPS = {"C01", "C02", "C03", "C04", "C05", "C06", "C08", "C09", "C10", "C11", "C12", "C13", "C15", "C16", "C17", "C20"}
PENDING = {}
checks = []
na = []
for p in props:
    pid = p["id"]
    if pid in CLAIMED:
        tech, text, note, ref = CLAIMED[pid]
        text = text + ADDED.get(pid, "")
        if pid in STATE_PROPS:
            text += " Also checked on every run (Props/State.lean): the state-holding structs have exactly the fields the models' state spaces were written from, there is no mutable package-level state, every function body releases what it locks on every path, every error branch reports with one of its own statements and leaves."
        if pid in FOUNDATION_PROPS:
            text += " Also checked on every run (Props/Foundation.lean): the contract of the shared infrastructure the model assumes — utils.Call recovers every panic, re-raises none and hands results back untouched; Receive fails only on a closed table; only failures of the link travel as panics into setErr; the codec methods are plain; the closure manager's table, ids, lock discipline, release and exported method set; loops and transport wrappers never wait; no package-level state."
        checks.append({
            "property_id": pid,
            "quick_cmd": f"./check {pid} --tier quick",
            "thorough_cmd": f"./check {pid} --tier thorough",
            "evidence_file": f"/verif/evidence/{pid}.json",
            "replay_cmd_template": f"./check {pid} --replay {{path}}",
            "engine": "lean-proofs+skeleton-extractor+go-correspondence-harness",
            "level_claimed": {"category": "proof", "text": text, "design_ref": ref},
            "level_note": note,
            "technique": tech,
        })
    else:
        na.append({"property_id": pid, "reason": "not yet claimed: " + PENDING.get(pid, "pending") + "; the Go correspondence suite exists but no other technique is substituted for the proof"})
m = {
 "version": 1,
 "setup_cmd": "./setup.sh",
 "hooks": {
   "guard": "verif",
   "enable": "go build -tags verif (the harness module replaces github.com/pojntfx/panrpc/go with /repo/go)",
   "baseline_off_cmd": "cd /repo/go && go test -vet=off -count=1 ./...",
   "source_commits": [l.strip() for l in open(os.path.join(V, "hook_commits.txt")) if l.strip()] if os.path.exists(os.path.join(V, "hook_commits.txt")) else [],
   "add_only": True,
 },
 "engines": [
   {"name": "lean-proofs", "path": "lean/", "serves_properties": sorted(CLAIMED), "kind_free_text": "Lean 4 (core only) models + theorems, one Props file per property"},
   {"name": "skeleton-extractor", "path": "extract/", "serves_properties": sorted(CLAIMED), "kind_free_text": "go/ast fact extractor: /repo source -> Skeleton.current (regenerated on every run)"},
   {"name": "go-correspondence-harness", "path": "harness/", "serves_properties": sorted(CLAIMED), "kind_free_text": "Go harness on the real packages (-tags verif): controlled scheduler, shims, oracles; replays traces on the Lean driver"},
 ],
 "checks": checks,
 "not_applicable": na,
 "notes": "See DESIGN.md. Known findings: known-findings.txt. Seeded breakages and which check catches them: seeded/ and DESIGN.md.",
}
json.dump(m, open(os.path.join(V, "MANIFEST.json"), "w"), indent=1)
print("checks:", len(checks), "not_applicable:", len(na))
