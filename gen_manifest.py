#!/usr/bin/env python3
"""Regenerates MANIFEST.json from the table below (kept in one place so it stays valid)."""
import json, os
V = os.path.dirname(os.path.abspath(__file__))
props = [json.loads(l) for l in open(os.path.join(V, "properties.jsonl"))]
# property -> (technique, level text, level_note, design_ref)
CLAIMED = {
 "C19": ("Lean 4 proof over LTS model M1 (inductive invariants) + regenerated skeleton + trace validation under a controlled scheduler",
         "Theorems (Props/C19.lean) for all reachable states of the broadcaster LTS, any number of threads/keys/contexts and every interleaving: no panic, at most one receiver per published value, no cross-key delivery, publish/receive enabledness once freed/closed/cancelled, justified outcomes, idempotent Free. Tied to the source by facts regenerated from /repo (Tie 1) and by replaying every executed schedule of the real Broadcaster on the model (Tie 2).",
         "Trusted: Lean kernel + 3 standard axioms; the go/ast extractor and Skeleton facts; Go channel/select/context semantics as modelled; hook placement; the scheduler's settle detection. Not carried by the theorem: Go scheduler fairness.",
         "DESIGN.md 7 C19, A.1"),
}
checks = []
na = []
for p in props:
    pid = p["id"]
    if pid in CLAIMED:
        tech, text, note, ref = CLAIMED[pid]
        checks.append({
            "property_id": pid,
            "quick_cmd": f"./check {pid} --tier quick",
            "thorough_cmd": f"./check {pid} --tier thorough",
            "evidence_file": f"/verif/evidence/{pid}.json",
            "replay_cmd_template": f"./check {pid} --replay {{path}}",
            "engine": "lean-proofs+skeleton-extractor+go-correspondence-harness",
            "level_claimed": {"category": "proof", "text": text, "design_ref": ref},
            "level_note": note,
            "technique": tech,
        })
    else:
        na.append({"property_id": pid, "reason": "not yet built in this round (Lean model and correspondence suite pending); no other technique is substituted"})
m = {
 "version": 1,
 "setup_cmd": "./setup.sh",
 "hooks": {
   "guard": "verif",
   "enable": "go build -tags verif (the harness module replaces github.com/pojntfx/panrpc/go with /repo/go)",
   "baseline_off_cmd": "cd /repo/go && go test -vet=off -count=1 ./...",
   "source_commits": [l.strip() for l in open(os.path.join(V, "hook_commits.txt")) if l.strip()] if os.path.exists(os.path.join(V, "hook_commits.txt")) else [],
   "add_only": True,
 },
 "engines": [
   {"name": "lean-proofs", "path": "lean/", "serves_properties": sorted(CLAIMED), "kind_free_text": "Lean 4 (core only) models + theorems, one Props file per property"},
   {"name": "skeleton-extractor", "path": "extract/", "serves_properties": sorted(CLAIMED), "kind_free_text": "go/ast fact extractor: /repo source -> Skeleton.current (regenerated on every run)"},
   {"name": "go-correspondence-harness", "path": "harness/", "serves_properties": sorted(CLAIMED), "kind_free_text": "Go harness on the real packages (-tags verif): controlled scheduler, shims, oracles; replays traces on the Lean driver"},
 ],
 "checks": checks,
 "not_applicable": na,
 "notes": "See DESIGN.md. Known findings: known-findings.txt. Seeded breakages and which check catches them: seeded/ and DESIGN.md.",
}
json.dump(m, open(os.path.join(V, "MANIFEST.json"), "w"), indent=1)
print("checks:", len(checks), "not_applicable:", len(na))
