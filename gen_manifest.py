#!/usr/bin/env python3
"""Regenerates MANIFEST.json from the table below (kept in one place so it stays valid)."""
import json, os
V = os.path.dirname(os.path.abspath(__file__))
props = [json.loads(l) for l in open(os.path.join(V, "properties.jsonl"))]
# property -> (technique, level text, level_note, design_ref)
TB = 'Trusted: Lean kernel + propext/Classical.choice/Quot.sound (audited per theorem each run); the go/ast extractor and the Skeleton facts it emits; '
CLAIMED = {
 "C19": ("Lean 4 proof over LTS model M1 (inductive invariants) + regenerated skeleton + trace validation under a controlled scheduler",
         "Theorems (Props/C19.lean) for all reachable states of the broadcaster LTS, any number of threads/keys/contexts and every interleaving: no panic, at most one receiver per published value, no cross-key delivery, publish/receive enabledness once freed/closed/cancelled, justified outcomes, idempotent Free. Tied to the source by facts regenerated from /repo (Tie 1) and by replaying every executed schedule of the real Broadcaster on the model (Tie 2).",
         TB + "Go channel/select/context semantics as modelled; hook placement; the scheduler's settle detection. Not carried by the theorem: Go scheduler fairness.",
         "DESIGN.md 7 C19, A.1"),
 "C18": ("Lean 4 proof over a structural model of the remote-definition walk + regenerated skeleton + differential run against real reflect",
         "Theorems (Props/C18.lean) for ALL remote struct shapes (any depth, order, mix): link succeeds iff every function field is valid, the error is the first invalid field's in depth-first order (return shape before arguments), non-function fields are irrelevant, the walk never panics, stub name = dotted path and Go's strings.Split inverts the join. Tie 2: 25 compiled remote types are linked for real in subprocesses, every stub invoked, outcome compared with the model and with an oracle computed from reflect.Type.",
         TB + "reflect's Set/CanSet/FieldByName behaviour as modelled (validated on the zoo); callee-side lookup is C07's model.",
         "DESIGN.md 7 C18"),
 "C17": ("Lean 4 proof over a tree model of frame construction + regenerated skeleton (struct tags, literals) + independent decoding of captured frames",
         "Theorems (Props/C17.lean) for all calls/arities/return shapes and any serializer: exact request/response/envelope trees, args never null, response carries the request's id, err empty iff nil under the hypothesis message != \"\" (the counterexample for the empty message is proved and is a KNOWN FINDING), foreign frames in any key order / absent or null args are parsed identically. Tie 2: every frame of a covering workload is captured, decoded with an independent generic decoder and compared with the model's rendering, 3 serializer configs x 2 APIs; hand-written foreign frames are answered.",
         TB + "the serializer is a parameter (decode . encode = id on frames is measured for the shims, not proved).",
         "DESIGN.md 7 C17, 8 F7"),
 "C09": ("Lean 4 proof over the wire model (parametric in the serializer) + regenerated skeleton + round-trip differential on the real link",
         "Theorems (Props/C09.lean) for every arity and any codec: handler argument i = decode(encode(caller argument i)) into the declared type, the context is never transmitted (frame independent of it, length arity-1), result = one round-trip of the handler's value. Tie 2: 12-parameter handler with boundary/zero/nil values under 3 serializer configs x 2 APIs, compared with a direct marshal->unmarshal.",
         TB + "serializer value semantics are the parameter; arg-count check precedes decoding (C07).",
         "DESIGN.md 7 C09"),
 "C10": ("Lean 4 proof over the wire model with Go's unicode.IsSpace table + regenerated skeleton + message differential on the real link",
         "Theorems (Props/C10.lean) for all message strings: a message with a non-blank character arrives byte-exact (untrimmed) for both return shapes, with the accompanying value; nil stays nil (also after earlier error frames); blank-only messages arrive as nil (outside the property's domain, stated as a fact). Tie 2: isGoSpace checked against unicode.IsSpace on all code points by the wire agent's differential; corner-case and PRNG messages through handlers and closures, both directions, 3 configs x 2 APIs, link must stay alive.",
         TB + "error identity is compared by message.",
         "DESIGN.md 7 C10"),
 "C11": ("Lean 4 proof over a model of convertValue / the closure wrapper + regenerated skeleton + differential against the real convertValue",
         "Theorems (Props/C11.lean): for all supported value lists (numbers, booleans, strings, slices of those, zero/empty/nil) under JSON and CBOR generic decoding the wrapper runs the function once with exactly those values; convertValue never panics for any source/destination; arity and inconvertible arguments are ordinary errors; value and error are handed back unchanged, result direction total. Tie 2: 685 source x destination pairs through the real convertValue (verif accessor) vs the model; closure workloads (0..5 invocations, concurrent, both directions, 10-parameter typed closure) on the real link. The exactly-once part rests on C01's model.",
         TB + "reflect.ConvertibleTo/Convert on the modelled classes (bit widths, non-integral floats, []byte outside the model).",
         "DESIGN.md 7 C11, 8 F3"),
 "C08": ("Lean 4 proof over an LTS of the stream demultiplexer (refinement to FIFO message delivery) + regenerated skeleton + transcript equality across configurations",
         "Theorems (Props/C08.lean, C08Live.lean) for every envelope sequence and interleaving: each reader sees exactly the FIFO subsequence of its members, nothing lost/duplicated/invented while the context lives, the decode error arrives after all earlier members and only then, envelopes carry exactly one member, the decoder can always finish (guarded hand-off). Payload opacity is a checked source fact (stPayloadOpaque). Tie 2: seeded workloads replayed under 8 configurations (2 APIs, PRNG stream chunking, 3 serializers): transcripts must be equal.",
         TB + "parametricity in the payload type is argued from the source fact, not proved as a free theorem.",
         "DESIGN.md 7 C08"),
 "C20": ("Lean 4 proof of a lockset theorem over a fragment of the Go memory model, instantiated by `decide` on the access table regenerated from the source; race detector as cross-check",
         "lockset_race_free: in every well-formed trace whose threads follow a disciplined access table no two conflicting accesses race (mutex rel->acq and close->receive edges); C20_instance: the table extracted from /repo on this run is disciplined. Cross-check: the workloads of nine suites re-run under `go build -race`; a report whose racing access is in panrpc code is a violation.",
         TB + "completeness of the extractor's enumeration of shared variables; lexical lock sets = dynamic ones; one writer goroutine per close-ordered variable; reflect/runtime internals.",
         "DESIGN.md 7 C20"),
}
PENDING = {
 "C01": "Lean model M3 (System) in progress",
 "C02": "Lean model M3 (System) in progress",
 "C03": "Lean model M2 (Endpoint) in progress",
 "C04": "Lean model M2 (Endpoint) in progress",
 "C05": "Lean model M2 (Endpoint) in progress",
 "C06": "Lean model P1 (Lookup) in progress",
 "C07": "Lean model P1 (Lookup) in progress",
 "C12": "Lean model M2 (Endpoint) in progress",
 "C13": "Lean model M4 (Registry) in progress",
 "C14": "Lean model M4 (Registry) in progress",
 "C15": "Lean model M2/M4 in progress",
 "C16": "Lean model M2 (Endpoint) in progress",
}
checks = []
na = []
for p in props:
    pid = p["id"]
    if pid in CLAIMED:
        tech, text, note, ref = CLAIMED[pid]
        checks.append({
            "property_id": pid,
            "quick_cmd": f"./check {pid} --tier quick",
            "thorough_cmd": f"./check {pid} --tier thorough",
            "evidence_file": f"/verif/evidence/{pid}.json",
            "replay_cmd_template": f"./check {pid} --replay {{path}}",
            "engine": "lean-proofs+skeleton-extractor+go-correspondence-harness",
            "level_claimed": {"category": "proof", "text": text, "design_ref": ref},
            "level_note": note,
            "technique": tech,
        })
    else:
        na.append({"property_id": pid, "reason": "not yet claimed: " + PENDING.get(pid, "pending") + "; the Go correspondence suite exists but no other technique is substituted for the proof"})
m = {
 "version": 1,
 "setup_cmd": "./setup.sh",
 "hooks": {
   "guard": "verif",
   "enable": "go build -tags verif (the harness module replaces github.com/pojntfx/panrpc/go with /repo/go)",
   "baseline_off_cmd": "cd /repo/go && go test -vet=off -count=1 ./...",
   "source_commits": [l.strip() for l in open(os.path.join(V, "hook_commits.txt")) if l.strip()] if os.path.exists(os.path.join(V, "hook_commits.txt")) else [],
   "add_only": True,
 },
 "engines": [
   {"name": "lean-proofs", "path": "lean/", "serves_properties": sorted(CLAIMED), "kind_free_text": "Lean 4 (core only) models + theorems, one Props file per property"},
   {"name": "skeleton-extractor", "path": "extract/", "serves_properties": sorted(CLAIMED), "kind_free_text": "go/ast fact extractor: /repo source -> Skeleton.current (regenerated on every run)"},
   {"name": "go-correspondence-harness", "path": "harness/", "serves_properties": sorted(CLAIMED), "kind_free_text": "Go harness on the real packages (-tags verif): controlled scheduler, shims, oracles; replays traces on the Lean driver"},
 ],
 "checks": checks,
 "not_applicable": na,
 "notes": "See DESIGN.md. Known findings: known-findings.txt. Seeded breakages and which check catches them: seeded/ and DESIGN.md.",
}
json.dump(m, open(os.path.join(V, "MANIFEST.json"), "w"), indent=1)
print("checks:", len(checks), "not_applicable:", len(na))
