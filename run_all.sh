#!/bin/sh
# usage: run_all.sh <tier> [Cxx…]  — runs the checks one after another, prints the summary lines.
tier="${1:-quick}"; shift
props="${*:-C01 C02 C03 C04 C05 C06 C07 C08 C09 C10 C11 C12 C13 C14 C15 C16 C17 C18 C19 C20}"
cd "$(dirname "$0")"
for c in $props; do ./check "$c" --tier "$tier" 2>&1 | grep -E "^(VIOLATION|KNOWN|  what|C[0-9]+ )" | cut -c1-300; done
